#!/usr/bin/env python3
"""confirm_seed.py <agent-worktree> <seed-id> <property> [props-to-check...]
Confirms a seeded change in a FRESH scratch worktree of /repo HEAD (outside /repo
and /verif): patch applies, tree builds, existing suite passes, demo fails with the
change and passes without it. Then runs the static checks against the patched
scratch tree and records what caught it. Writes /verif/seeded/<seed-id>/."""
import json, os, shutil, subprocess, sys, glob, re, time

wt, sid, prop = sys.argv[1], sys.argv[2], sys.argv[3]
props = sys.argv[4:] or [prop]
ENV = dict(os.environ, GOFLAGS="-mod=mod", GOPROXY="off", GOSUMDB="off", GOTOOLCHAIN="local", GOWORK="off")
def run(cmd, cwd=None, ok=None):
    r = subprocess.run(cmd, cwd=cwd, env=ENV, capture_output=True, text=True, shell=isinstance(cmd, str))
    return r.returncode, (r.stdout + r.stderr)

patch = os.path.join(wt, "MUTATION", "patch.diff")
demo_src = None
for f in glob.glob(os.path.join(wt, "**", "zz_demo_test.go"), recursive=True):
    if "/MUTATION/" not in f:
        demo_src = f
if demo_src is None:
    demo_src = os.path.join(wt, "MUTATION", "zz_demo_test.go")
    demo_rel = "zz_demo_test.go"
else:
    demo_rel = os.path.relpath(demo_src, wt)
scratch = f"/tmp/cf_{sid}"
run(["git", "-C", "/repo", "worktree", "remove", "--force", scratch])
rc, out = run(["git", "-C", "/repo", "worktree", "add", "--detach", scratch, "HEAD"])
assert rc == 0, out
res = {"seed": sid, "property": prop, "ran": []}
try:
    rc, out = run(["git", "apply", patch], cwd=scratch); res["ran"].append(["git apply patch.diff", rc]); assert rc == 0, "patch does not apply: " + out
    rc, out = run("go build ./...", cwd=scratch); res["ran"].append(["go build ./...", rc]); assert rc == 0, "does not build: " + out
    rc, out = run("go test -count=1 -vet=off ./...", cwd=scratch); res["ran"].append(["go test -count=1 -vet=off ./... (existing suite, with the change)", rc]); assert rc == 0, "existing suite fails: " + out[-600:]
    shutil.copy(demo_src, os.path.join(scratch, demo_rel))
    pkg = "./" + os.path.dirname(demo_rel) if os.path.dirname(demo_rel) else "."
    rc, out = run(f"go test -count=1 -vet=off -run TestMutationDemo {pkg}", cwd=scratch); res["ran"].append([f"go test -run TestMutationDemo {pkg} (with the change)", rc]); assert rc != 0, "demo passes with the change"
    res["demo_failure"] = "\n".join(l for l in out.splitlines() if "zz_demo_test" in l or "FAIL" in l or "panic" in l)[:1500]
    # static checks against the patched tree (demo test is a _test file: not loaded)
    caught = {}
    for p in props:
        rc, out = run(["/verif/bin/tengocheck", "-prop", p, "-repo", scratch, "-verif", "/verif", "-no-evidence"])
        rules = sorted(set(re.findall(r"violation: rule=(\S+) key=(\S+)", out)))
        caught[p] = {"exit": rc, "violations": [f"{a}:{b}" for a, b in rules]}
    res["static_checks"] = caught
    rc, out = run(["git", "apply", "-R", patch], cwd=scratch); assert rc == 0, out
    rc, out = run(f"go test -count=1 -vet=off -run TestMutationDemo {pkg}", cwd=scratch); res["ran"].append([f"go test -run TestMutationDemo {pkg} (without the change)", rc]); assert rc == 0, "demo fails without the change: " + out[-600:]
    res["confirmed"] = True
finally:
    run(["git", "-C", "/repo", "worktree", "remove", "--force", scratch])
    shutil.rmtree(scratch, ignore_errors=True)
d = f"/verif/seeded/{sid}"
os.makedirs(d, exist_ok=True)
shutil.copy(patch, os.path.join(d, "patch.diff"))
shutil.copy(demo_src, os.path.join(d, "zz_demo_test.go"))
readme = os.path.join(wt, "MUTATION", "README.md")
needs = open(readme).read() if os.path.exists(readme) else ""
res["demo_location"] = demo_rel
res["needs_to_manifest"] = needs[:3000]
res["source"] = "independent sub-agent given only the property text and a scratch worktree"
json.dump(res, open(os.path.join(d, "meta.json"), "w"), indent=1)
det = {p: v["violations"] for p, v in res["static_checks"].items()}
print(sid, "confirmed; detected:" , json.dumps(det)[:400])
