#!/usr/bin/env python3
"""transform_check.py: apply each whole-tree behaviour-preserving transformation of bin/renamer (rename all
locals, mirror comparisons, flip if/else, shuffle switch clauses) to a scratch copy of /repo, build it, run
all checks on it and compare with the unchanged tree: no violation, and the same number of instances per rule.
Copies live under $TMPDIR and are removed."""
import os, re, shutil, subprocess, sys, tempfile
ENV = dict(os.environ, GOFLAGS="-mod=mod", GOPROXY="off", GOSUMDB="off", GOTOOLCHAIN="local")
ENV.pop("GOWORK", None)
def counts(repo):
    c = subprocess.run(["/verif/bin/tengocheck", "-prop", "all", "-repo", repo, "-no-evidence"], env=ENV, capture_output=True, text=True)
    inst, bad = {}, []
    for l in c.stdout.splitlines():
        m = re.match(r"(C\d\d) (\S+)\s+instances=(\d+)\s+floor=\d+\s+failed=(\d+)", l)
        if m:
            inst[(m.group(1), m.group(2))] = int(m.group(3))
        if "VIOLATION" in l or l.strip().startswith(("violation:", "undecided:", "anchor")):
            bad.append(l.strip()[:300])
    return inst, bad, c.returncode
base, bad0, rc0 = counts("/repo")
print("unchanged tree: rules=%d exit=%d" % (len(base), rc0))
ok = rc0 == 0
for mode in ([], ["-mirror"], ["-flip"], ["-shuffle"]):
    d = tempfile.mkdtemp(prefix="xform-")
    try:
        subprocess.check_call(["rsync", "-a", "--exclude", ".git", "/repo/", d + "/"])
        r = subprocess.run(["/verif/bin/renamer", "-src", d, "-dst", d] + mode, env=ENV, capture_output=True, text=True)
        if r.returncode != 0:
            print(mode, "renamer failed", (r.stdout + r.stderr)[-300:]); ok = False; continue
        b = subprocess.run(["go", "build", "./..."], cwd=d, env=ENV, capture_output=True, text=True)
        if b.returncode != 0:
            print(mode, "build failed", b.stderr[-300:]); ok = False; continue
        inst, bad, rc = counts(d)
        diff = {k: (base.get(k), inst.get(k)) for k in set(base) | set(inst) if base.get(k) != inst.get(k)}
        print("%-10s exit=%d violations=%d instance-count differences=%d %s" % (" ".join(mode) or "rename", rc, len(bad), len(diff), r.stdout.strip().splitlines()[-1] if r.stdout.strip() else ""))
        for l in bad[:20]: print("   ", l)
        for k, v in sorted(diff.items()): print("    count", k, v)
        if rc != 0 or bad or diff: ok = False
    finally:
        shutil.rmtree(d, ignore_errors=True)
sys.exit(0 if ok else 1)
