#!/usr/bin/env python3
"""replay_seeds.py [ids...]: apply every seeded change to a scratch copy of /repo's current tree and run the checks of
its property (and the ones recorded in meta.json): each must be reported. Copies live under $TMPDIR and are removed."""
import os, subprocess, sys, tempfile, shutil, json, glob, concurrent.futures, re
ENV = dict(os.environ, GOFLAGS="-mod=mod", GOPROXY="off", GOSUMDB="off", GOTOOLCHAIN="local")
RENAMED = False
XFLAGS = []
def run(sd):
    sid = os.path.basename(sd.rstrip("/"))
    meta = json.load(open(os.path.join(sd, "meta.json")))
    props = sorted(set([meta["property"]] + [p for p, v in meta.get("static_checks", {}).items() if isinstance(v, dict) and v.get("violations")]))
    d = tempfile.mkdtemp(prefix="seed_")
    try:
        subprocess.check_call(["rsync", "-a", "--exclude", ".git", "/repo/", d + "/"])
        r = subprocess.run(["patch", "-p1", "-s", "-d", d, "-i", os.path.join(sd, "patch.diff")], capture_output=True, text=True)
        if r.returncode != 0:
            return sid, False, "patch does not apply to the current tree: " + (r.stdout + r.stderr)[:200]
        b = subprocess.run(["go", "build", "./..."], cwd=d, env=ENV, capture_output=True, text=True)
        if b.returncode != 0:
            return sid, False, "does not build: " + b.stderr[:200]
        if RENAMED:
            # rename every local of the patched tree: the report must not depend on names
            r = subprocess.run(["/verif/bin/renamer", "-src", d, "-dst", d] + XFLAGS, env=ENV, capture_output=True, text=True)
            if r.returncode != 0:
                return sid, False, "renamer failed: " + (r.stdout + r.stderr)[:200]
            b = subprocess.run(["go", "build", "./..."], cwd=d, env=ENV, capture_output=True, text=True)
            if b.returncode != 0:
                return sid, False, "renamed tree does not build: " + b.stderr[:200]
        out = []
        caughtOwn = False
        for p in props:
            c = subprocess.run(["/verif/bin/tengocheck", "-prop", p, "-repo", d, "-no-evidence"], env=ENV, capture_output=True, text=True)
            v = sorted(set(re.findall(r"violation: rule=(\S+) key=(\S+)", c.stdout)))
            if v and p == meta["property"]:
                caughtOwn = True
            out.append(p + ":" + ",".join(a for a, _ in v[:3]))
        return sid, caughtOwn, " ".join(out)
    finally:
        shutil.rmtree(d, ignore_errors=True)
RENAMED = any(a in sys.argv for a in ("--renamed", "--mirror", "--flip"))
XFLAGS = ["-" + a[2:] for a in sys.argv if a in ("--mirror", "--flip")]
sys.argv = [a for a in sys.argv if a not in ("--renamed", "--mirror", "--flip")]
dirs = sorted(glob.glob("/verif/seeded/*/"))
if len(sys.argv) > 1:
    dirs = [d for d in dirs if os.path.basename(d.rstrip("/")) in sys.argv[1:]]
ok = True
with concurrent.futures.ThreadPoolExecutor(max_workers=6) as ex:
    for sid, good, msg in ex.map(run, dirs):
        print(("caught " if good else "MISSED ") + sid + ": " + msg, flush=True)
        ok = ok and good
sys.exit(0 if ok else 1)
