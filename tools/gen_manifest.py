#!/usr/bin/env python3
"""Regenerates /verif/MANIFEST.json from the checker's registry (tengocheck -list)
plus the per-property claim texts below. Run after adding rules."""
import json, os, subprocess, re

HERE = os.path.dirname(os.path.abspath(__file__))
VERIF = os.path.dirname(HERE)

out = subprocess.run([os.path.join(VERIF, "bin/tengocheck"), "-list"], capture_output=True, text=True, check=True).stdout
rules = {}
cur = None
for line in out.splitlines():
    m = re.match(r"^(C\d+):", line)
    if m:
        cur = m.group(1); rules[cur] = []
    else:
        m = re.match(r"^\s+(\S+)\s+\[(.) floor=(\d+)\]", line)
        if m: rules[cur].append(m.group(1) + ("(t)" if m.group(2) == "t" else ""))

CLAIMS = json.load(open(os.path.join(HERE, "claims.json")))
props = [json.loads(l) for l in open(os.path.join(VERIF, "properties.jsonl"))]

checks, na = [], []
for p in props:
    pid = p["id"]
    c = CLAIMS.get(pid, {})
    if pid in rules and rules[pid] and not c.get("not_applicable"):
        checks.append({
            "property_id": pid,
            "quick_cmd": f"./check {pid} quick",
            "thorough_cmd": f"./check {pid} thorough",
            "evidence_file": f"/verif/evidence/{pid}.json",
            "replay_cmd_template": f"./check {pid} quick   # re-derives every violation listed in {{path}} from /repo's current source",
            "engine": "tengocheck",
            "level_claimed": {
                "category": "other",
                "text": "Static analysis, structural necessary condition only. " + c.get("text", ""),
                "design_ref": "DESIGN.md section 3, " + pid,
            },
            "level_note": c.get("note", "") + " Rules: " + ", ".join(rules[pid]) + ". Trusted: Go parser/type checker, x/tools go/cfg, go/ssa, callgraph; the repository-specific idiom tables in /verif/checker.",
            "technique": c.get("technique", "static analysis: custom AST/type/CFG/SSA rules over the resolved program"),
        })
    else:
        na.append({"property_id": pid, "reason": c.get("not_applicable", "static check not built yet (see DESIGN.md section 3 for the planned structural clause)")})

m = {
    "version": 1,
    "setup_cmd": "cd /verif/checker && GOFLAGS=-mod=mod GOPROXY=off GOSUMDB=off GOTOOLCHAIN=local GOWORK=off go build -o /verif/bin/tengocheck ./cmd/tengocheck",
    "hooks": {
        "guard": "verif",
        "enable": "none: static analysis reads the ordinary build of /repo; no hook is compiled in",
        "baseline_off_cmd": "cd /repo && go test -vet=off -count=1 ./...",
        "source_commits": [],
        "add_only": True,
    },
    "engines": [{
        "name": "tengocheck",
        "path": "/verif/checker/cmd/tengocheck",
        "serves_properties": [c["property_id"] for c in checks],
        "kind_free_text": "repository-specific static analyser (go/packages + go/types + go/cfg + go/ssa + VTA call graph); loads /repo's current working tree on every run, never executes tengo code",
    }],
    "checks": checks,
    "not_applicable": na,
    "notes": "All claims are level 'other': each check decides structural necessary conditions of its property from the source (rule instances keyed by construct, with floors), not the behavioural property as a whole; DESIGN.md states per property what is and is not decided. Known genuine defects are listed in /verif/known_findings.json.",
}
json.dump(m, open(os.path.join(VERIF, "MANIFEST.json"), "w"), indent=1)
print("checks:", [c["property_id"] for c in checks], "na:", [n["property_id"] for n in na])
