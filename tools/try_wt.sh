#!/bin/sh
# tools/try_wt.sh <worktree> <prop>...  : run checks against a scratch worktree (no evidence written)
WT=$1; shift
for p in "$@"; do
  /verif/bin/tengocheck -prop $p -repo $WT -verif /verif -no-evidence 2>&1 | grep -E "violation:|VIOLATION|quick:" | cut -c1-260
done
